"""Abstract evaluation of per-instruction predicates (`InstructionProperties`, `HasGenValueInfo`, ...) on one
ParserNode variant with given operand values.  Values: register variant names ("X0".."X31"), instruction
variant names, integers, tuples, ("some", v) / "none", booleans."""
from .facts import *
from .p_c08 import PNODE

IPROPS = "InstructionProperties"
REG = "riscv_analysis::parser::register::Register"


class Unx(Exception):
    pass


def _payload_name(arm):
    bs = [b["name"] for b in walk(arm["pat"]) if b.get("k") == "PBinding"]
    return bs[0] if bs else None


def _variants_of(pat):
    vs = [short(v) for k, v in pat_variants(pat) if k == "path" and v]
    if pat.get("k") in ("PWild", "PBinding") or any(k == "wild" for k, v in pat_variants(pat)):
        vs.append("_")
    return vs


def _strip(e):
    e = peel(e)
    while True:
        if e.get("k") in ("DropTemps", "Use"):
            e = peel(e["e"])
        elif e.get("k") == "Block" and not e.get("stmts") and e.get("expr") is not None:
            e = peel(e["expr"])
        else:
            return e


class Ev:
    def __init__(self, F, variant, env, depth=0):
        self.F, self.variant, self.env, self.depth = F, variant, env, depth

    def prop(self, method, trait=None):
        if self.depth > 5:
            raise Unx("delegation too deep")
        p = None
        for t in ([trait] if trait else []) + [IPROPS, "HasGenValueInfo", "HasGenKillInfo", None]:
            try:
                p = self.F.method(PNODE, method, trait=t) if t else self.F.method(PNODE, method)
                if p:
                    break
            except Exception:
                p = None
        if not p:
            raise Unx(f"no method {method} on ParserNode")
        f = self.F.fn(p)
        sub = Ev(self.F, self.variant, self.env, self.depth + 1)
        return sub.body(f["hir"]["value"], None, {})

    # ---- values
    _NORET = object()

    def _stmt_return(self, e, payload, loc_):
        """value returned by a statement-level `if .. { return v }` (nested ifs, `if let`), or _NORET when control goes on"""
        e = _strip(e)
        k = e.get("k")
        if k == "Ret":
            return self.body(e["e"], payload, loc_) if e.get("e") is not None else "unit"
        if k == "Block":
            l2 = dict(loc_)
            for st in e.get("stmts", []):
                if st.get("k") == "Let" and st["pat"].get("k") == "PBinding" and st.get("init") is not None:
                    l2[st["pat"]["name"]] = self.body(st["init"], payload, l2)
                elif st.get("k") in ("Semi", "Expr") and st.get("e") is not None:
                    r = self._stmt_return(st["e"], payload, l2)
                    if r is not Ev._NORET:
                        return r
            if e.get("expr") is not None:
                return self._stmt_return(e["expr"], payload, l2)
            return Ev._NORET
        if k == "If":
            c = _strip(e["cond"])
            if c.get("k") == "LetExpr":
                v = self.body(c["init"], payload, loc_)
                b = self.bind(c["pat"], v)
                if b is not None:
                    l2 = dict(loc_)
                    l2.update(b)
                    return self._stmt_return(e["then"], payload, l2)
                return self._stmt_return(e["else"], payload, loc_) if e.get("else") is not None else Ev._NORET
            if self.truth(c, payload, loc_):
                return self._stmt_return(e["then"], payload, loc_)
            return self._stmt_return(e["else"], payload, loc_) if e.get("else") is not None else Ev._NORET
        return Ev._NORET

    def body(self, e, payload, loc_):
        e = _strip(e)
        k = e.get("k")
        if k == "Block" and e.get("stmts"):
            # straight-line body: `let x = ..;` bindings, `if .. { return v }` early exits, then the tail expression
            l2 = dict(loc_)
            for st in e["stmts"]:
                if st.get("k") == "Let" and st["pat"].get("k") == "PBinding" and st.get("init") is not None:
                    l2[st["pat"]["name"]] = self.body(st["init"], payload, l2)
                elif st.get("k") in ("Semi", "Expr") and st.get("e") is not None:
                    r = self._stmt_return(st["e"], payload, l2)
                    if r is not Ev._NORET:
                        return r
                else:
                    raise Unx("statement in a property body")
            if e.get("expr") is None:
                raise Unx("block without a value")
            return self.body(e["expr"], payload, l2)
        if k == "Path" and e.get("res_kind") == "Local" and e.get("res") in loc_:
            return loc_[e["res"]]
        if k == "Match":
            sc = _strip(e["scrut"])
            if ekey(sc).lstrip("*&") == "self":
                for arm in e["arms"]:
                    vs = _variants_of(arm["pat"])
                    if self.variant in vs or "_" in vs:
                        pl = _payload_name(arm) if self.variant in vs else None
                        g = arm.get("guard")
                        if g is not None and not self.truth(g, pl, loc_):
                            continue
                        return self.body(arm["body"], pl, loc_)
                raise Unx("no arm applies")
            # match on a computed value (e.g. `match self.stores_to_memory() { Some((a,(b,c))) if .. => .. }`)
            v = self.body(sc, payload, loc_)
            for arm in e["arms"]:
                b = self.bind(arm["pat"], v)
                if b is None:
                    continue
                l2 = dict(loc_)
                l2.update(b)
                g = arm.get("guard")
                if g is not None and not self.truth(g, payload, l2):
                    continue
                return self.body(arm["body"], payload, l2)
            raise Unx("no arm of the inner match applies")
        if k == "If" and e.get("else") is not None:
            c = _strip(e["cond"])
            if c.get("k") == "LetExpr":
                v = self.body(c["init"], payload, loc_)
                b = self.bind(c["pat"], v)
                if b is not None:
                    l2 = dict(loc_)
                    l2.update(b)
                    return self.body(e["then"], payload, l2)
                return self.body(e["else"], payload, loc_)
            return self.body(e["then"] if self.truth(c, payload, loc_) else e["else"], payload, loc_)
        if k == "Call" and short(callee_of(e) or "") == "Some" and (callee_of(e) or "").startswith("core::option"):
            return ("some", self.val(e["args"][0], payload, loc_))
        if k == "Path" and short(e.get("res") or "") == "None" and (e.get("res") or "").startswith("core::option"):
            return "none"
        if k == "MethodCall" and ekey(e["recv"]).lstrip("*&") == "self" and not e["args"]:
            return self.prop(e["name"])
        if k == "MethodCall" and e["name"] in ("is_some", "is_none") and not e["args"]:
            r = self.body(e["recv"], payload, loc_)
            some = isinstance(r, tuple) and r and r[0] == "some"
            return some if e["name"] == "is_some" else (r == "none")
        if k == "MethodCall" and e["name"] in ("then", "then_some") and len(e["args"]) == 1:
            # `cond.then(|| v)`: Some(v) exactly when cond
            if not self.truth(e["recv"], payload, loc_):
                return "none"
            a = _strip(e["args"][0])
            return ("some", self.val(a["body"] if (e["name"] == "then" and a.get("k") == "Closure") else a, payload, loc_))
        if k == "MethodCall" and e["name"] in ("or_else", "or") and len(e["args"]) == 1:
            r = self.body(e["recv"], payload, loc_)
            if r != "none":
                return r
            a = _strip(e["args"][0])
            return self.body(a["body"] if a.get("k") == "Closure" else a, payload, loc_)
        if k == "MethodCall" and e["name"] == "filter" and len(e["args"]) == 1 and _strip(e["args"][0]).get("k") == "Closure":
            r = self.body(e["recv"], payload, loc_)
            if r == "none":
                return "none"
            cl = _strip(e["args"][0])
            if isinstance(r, tuple) and r and r[0] == "some" and len(cl.get("params", [])) == 1:
                b = self.bind(cl["params"][0], r[1])
                if b is not None:
                    l2 = dict(loc_)
                    l2.update(b)
                    return r if self.truth(cl["body"], payload, l2) else "none"
            raise Unx("filter on an Option whose content is not known")
        if k == "MethodCall" and e["name"] == "map" and len(e["args"]) == 1:
            r = self.body(e["recv"], payload, loc_)
            if r == "none":
                return "none"
            cl = _strip(e["args"][0])
            if isinstance(r, tuple) and r and r[0] == "some" and cl.get("k") == "Closure" and len(cl.get("params", [])) == 1:
                try:
                    b = self.bind(cl["params"][0], r[1])
                    if b is not None:
                        l2 = dict(loc_)
                        l2.update(b)
                        return ("some", self.val(cl["body"], payload, l2))
                except Unx:
                    pass
            return ("some", "?")
        if k == "Binary" and e["op"] in ("Sub", "BitOr", "BitAnd"):
            # set-valued expressions (`(<if chain>) - Register::const_zero_set()`): keep the structure
            return ("bin", e["op"], self.body(e["a"], payload, loc_), self.body(e["b"], payload, loc_))
        try:
            return self.truth(e, payload, loc_)
        except Unx:
            return self.val(e, payload, loc_)

    def val(self, e, payload, loc_):
        e = _strip(e)
        k = e.get("k")
        if k == "Tup":
            return tuple(self.val(x, payload, loc_) for x in e["elems"])
        if k == "MethodCall" and e["name"] in ("get", "get_cloned", "clone", "value") and not e["args"]:
            return self.val(e["recv"], payload, loc_)
        if k in ("AddrOf",) or (k == "Unary" and e.get("op") == "Deref"):
            return self.val(e.get("e") or e.get("a"), payload, loc_)
        if k == "Field" and _strip(e["e"]).get("k") == "Path" and _strip(e["e"]).get("res") == payload and payload is not None:
            if e["name"] not in self.env:
                return "?" + e["name"]
            return self.env[e["name"]]
        if k == "Path" and e.get("res_kind") == "Local":
            if e.get("res") in loc_:
                return loc_[e["res"]]
            return "?"
        if k == "Path" and e.get("res") and "::" in e["res"]:
            return short(e["res"])
        lv = lit_value(e)
        if isinstance(lv, (int, bool)):
            return lv
        if k == "Call":
            return ("call", short(callee_of(e) or "?")) + tuple(self.val(a, payload, loc_) for a in e["args"])
        return "?"

    def bind(self, pat, v):
        """-> dict of bindings if pattern matches value, else None"""
        k = pat.get("k")
        if k == "PWild":
            return {}
        if k == "PBinding":
            return {pat["name"]: v}
        res = pat.get("res") or (peel(pat.get("e") or {}).get("res") if k == "PExpr" else "") or ""
        if short(res) == "Some":
            if isinstance(v, tuple) and v and v[0] == "some":
                return self.bind(pat["pats"][0], v[1])
            return None
        if short(res) == "None":
            return {} if v == "none" else None
        if k == "PTuple":
            if isinstance(v, tuple) and len(v) == len(pat["pats"]) and (not v or v[0] not in ("some", "call")):
                out = {}
                for p_, x in zip(pat["pats"], v):
                    b = self.bind(p_, x)
                    if b is None:
                        return None
                    out.update(b)
                return out
            if v == "?":
                out = {}
                for b_ in walk(pat):
                    if b_.get("k") == "PBinding":
                        out[b_["name"]] = "?"
                return out
            return None
        if k in ("PRef", "PDeref", "PBox"):
            return self.bind(pat["pat"], v)
        if k in ("PExpr", "PPath", "PStruct", "PTupleStruct") and res and "::" in res:
            # a unit variant / constant compared with an atom (`match x.inst.get() { CsrType::Csrrw => .. }`)
            if isinstance(v, str) and not v.startswith("?"):
                return {} if short(res) == v else None
            raise Unx(f"match of an unknown value against {short(res)}")
        if k == "POr":
            for p_ in pat["pats"]:
                b = self.bind(p_, v)
                if b is not None:
                    return b
            return None
        raise Unx(f"pattern {k}")

    # ---- booleans
    def truth(self, e, payload, loc_):
        e = _strip(e)
        k = e.get("k")
        if k == "Lit" and e["lit"]["t"] == "bool":
            return e["lit"]["v"]
        if k == "Binary" and e["op"] in ("And", "Or"):
            a = self.truth(e["a"], payload, loc_)
            if e["op"] == "And":
                return a and self.truth(e["b"], payload, loc_)
            return a or self.truth(e["b"], payload, loc_)
        if k == "Unary" and e["op"] == "Not":
            return not self.truth(e["a"], payload, loc_)
        if k == "Binary" and e["op"] in ("Eq", "Ne"):
            x, y = self.val(e["a"], payload, loc_), self.val(e["b"], payload, loc_)
            if isinstance(x, str) and x.startswith("?") or isinstance(y, str) and y.startswith("?"):
                raise Unx(f"comparison with unknown {x} / {y}")
            r = x == y
            return r if e["op"] == "Eq" else not r
        if k == "MethodCall" and ekey(e["recv"]).lstrip("*&") == "self" and not e["args"]:
            r = self.prop(e["name"])
            if isinstance(r, bool):
                return r
            raise Unx(f"{e['name']}() used as a condition")
        if k == "MethodCall" and e["name"] in ("is_some", "is_none") and not e["args"]:
            r = self.body(e["recv"], payload, loc_)
            some = isinstance(r, tuple) and r and r[0] == "some"
            return some if e["name"] == "is_some" else (r == "none")
        if k == "MethodCall" and not e["args"]:
            # predicate on a register value, e.g. `x.rs1.get().is_stack_pointer()`
            rv = self.val(e["recv"], payload, loc_)
            if isinstance(rv, str) and rv.startswith("X") and rv[1:].isdigit():
                return reg_pred(self.F, e["name"], rv)
        if k == "Match":
            r = self.body(e, payload, loc_)
            if isinstance(r, bool):
                return r
        if k == "Field":
            r = self.val(e, payload, loc_)
            if isinstance(r, bool):
                return r
        raise Unx(ekey(e)[:60])


def reg_pred(F, method, reg):
    p = None
    for t in ("RegisterProperties", None):
        try:
            p = F.method(REG, method, trait=t) if t else F.method(REG, method)
            if p:
                break
        except Exception:
            p = None
    if not p:
        raise Unx(f"no Register::{method}")
    b = _strip(F.fn(p)["hir"]["value"])

    def ev(e):
        e = _strip(e)
        k = e.get("k")
        if k == "Binary" and e["op"] in ("And", "Or"):
            return (ev(e["a"]) and ev(e["b"])) if e["op"] == "And" else (ev(e["a"]) or ev(e["b"]))
        if k == "Unary" and e["op"] == "Not":
            return not ev(e["a"])
        if k == "Binary" and e["op"] in ("Eq", "Ne"):
            def at(x):
                x = _strip(x)
                while x.get("k") in ("AddrOf",) or (x.get("k") == "Unary" and x.get("op") == "Deref"):
                    x = _strip(x.get("e") or x.get("a"))
                if x.get("k") == "Path" and x.get("res") == "self":
                    return reg
                if x.get("k") == "Path" and (x.get("res") or "").startswith(REG + "::"):
                    return short(x["res"])
                raise Unx("register predicate atom")
            r = at(e["a"]) == at(e["b"])
            return r if e["op"] == "Eq" else not r
        if k == "Match" and ekey(e["scrut"]).lstrip("*&") == "self":
            for arm in e["arms"]:
                vs = _variants_of(arm["pat"])
                if reg in vs or "_" in vs:
                    return ev(arm["body"])
        if k == "Lit" and e["lit"]["t"] == "bool":
            return e["lit"]["v"]
        raise Unx("register predicate shape")
    return ev(b)


def eval_prop(F, method, variant, env, trait=None):
    """-> ('some', payload) | 'none' | True | False | value"""
    r = Ev(F, variant, env).prop(method, trait)
    if isinstance(r, tuple) and r and r[0] == "some":
        return "some"
    return r


def eval_prop_full(F, method, variant, env, trait=None):
    return Ev(F, variant, env).prop(method, trait)
