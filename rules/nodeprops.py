"""Abstract evaluation of `InstructionProperties` predicates on one ParserNode variant with given field values."""
from .facts import *
from .p_c08 import self_match, arm_table, PNODE

IPROPS = "InstructionProperties"
REG = "riscv_analysis::parser::register::Register"


class Unx(Exception):
    pass


def _payload_name(arm):
    bs = [b["name"] for b in walk(arm["pat"]) if b.get("k") == "PBinding"]
    return bs[0] if bs else None


def _variants_of(pat):
    return [short(v) for k, v in pat_variants(pat) if k == "path" and v] + (["_"] if any(k == "wild" for k, v in pat_variants(pat)) or pat.get("k") in ("PWild", "PBinding") else [])


def eval_prop(F, method, variant, env, depth=0):
    """-> 'some' | 'none' | True | False.  env: field name -> abstract value (register variant name, inst variant name, int)."""
    if depth > 4:
        raise Unx("delegation too deep")
    p = F.method(PNODE, method, trait=IPROPS)
    f = F.fn(p)
    body = peel(f["hir"]["value"])
    while body.get("k") == "Block" and not body.get("stmts") and body.get("expr") is not None:
        body = peel(body["expr"])
    return _ev_body(F, body, variant, env, None, depth)


def _ev_body(F, e, variant, env, payload, depth):
    e = peel(e)
    while e.get("k") == "Block" and not e.get("stmts") and e.get("expr") is not None:
        e = peel(e["expr"])
    k = e.get("k")
    if k == "Match" and ekey(e["scrut"]).lstrip("*&") == "self":
        for arm in e["arms"]:
            vs = _variants_of(arm["pat"])
            if variant in vs or "_" in vs:
                pl = _payload_name(arm) if variant in vs else None
                g = arm.get("guard")
                if g is not None and not _ev_bool(F, g, variant, env, pl, depth):
                    continue
                return _ev_body(F, arm["body"], variant, env, pl, depth)
        raise Unx("no arm applies")
    if k == "Call" and short(callee_of(e) or "") == "Some":
        return "some"
    if k == "Path" and short(e.get("res") or "") == "None":
        return "none"
    if k == "MethodCall" and ekey(e["recv"]).lstrip("*&") == "self" and not e["args"]:
        return eval_prop(F, e["name"], variant, env, depth + 1)
    if k == "MethodCall" and e["name"] in ("is_some", "is_none") and not e["args"]:
        r = _ev_body(F, e["recv"], variant, env, payload, depth)
        return (r == "some") if e["name"] == "is_some" else (r == "none")
    if k == "If" and e.get("else") is not None:
        c = _ev_bool(F, e["cond"], variant, env, payload, depth)
        return _ev_body(F, e["then"] if c else e["else"], variant, env, payload, depth)
    return _ev_bool(F, e, variant, env, payload, depth)


def _atom(e, env, payload):
    e = peel(e)
    k = e.get("k")
    if k == "MethodCall" and e["name"] in ("get", "get_cloned", "clone", "value") and not e["args"]:
        return _atom(e["recv"], env, payload)
    if k in ("AddrOf", "Unary") and e.get("op") in (None, "Deref"):
        return _atom(e.get("e") or e.get("a"), env, payload)
    if k == "Field" and peel(e["e"]).get("k") == "Path" and peel(e["e"]).get("res") == payload:
        if e["name"] not in env:
            raise Unx("field " + e["name"])
        return env[e["name"]]
    if k == "Path" and e.get("res") and "::" in e["res"] and e.get("res_kind") != "Local":
        return short(e["res"])
    lv = lit_value(e)
    if isinstance(lv, (int, bool)):
        return lv
    raise Unx(ekey(e)[:50])


def _ev_bool(F, e, variant, env, payload, depth):
    e = peel(e)
    while e.get("k") in ("DropTemps", "Use"):
        e = peel(e["e"])
    while e.get("k") == "Block" and not e.get("stmts") and e.get("expr") is not None:
        e = peel(e["expr"])
    k = e.get("k")
    if k == "Lit" and e["lit"]["t"] == "bool":
        return e["lit"]["v"]
    if k == "Binary" and e["op"] in ("And", "Or"):
        a = _ev_bool(F, e["a"], variant, env, payload, depth)
        if e["op"] == "And":
            return a and _ev_bool(F, e["b"], variant, env, payload, depth)
        return a or _ev_bool(F, e["b"], variant, env, payload, depth)
    if k == "Unary" and e["op"] == "Not":
        return not _ev_bool(F, e["a"], variant, env, payload, depth)
    if k == "Binary" and e["op"] in ("Eq", "Ne"):
        r = _atom(e["a"], env, payload) == _atom(e["b"], env, payload)
        return r if e["op"] == "Eq" else not r
    if k == "MethodCall" and ekey(e["recv"]).lstrip("*&") == "self" and not e["args"]:
        r = eval_prop(F, e["name"], variant, env, depth + 1)
        if isinstance(r, bool):
            return r
        raise Unx(f"{e['name']}() used as a condition")
    if k == "MethodCall" and e["name"] in ("is_some", "is_none") and not e["args"]:
        r = _ev_body(F, e["recv"], variant, env, payload, depth)
        return (r == "some") if e["name"] == "is_some" else (r == "none")
    if k == "Match" and e.get("src") != "ForLoopDesugar":
        return _ev_body(F, e, variant, env, payload, depth)
    raise Unx(ekey(e)[:60])
