// Type-resolved HIR expression trees as JSON.
use crate::json::J;
use crate::{np, Cx};
use rustc_hir as hir;
use rustc_hir::def::{DefKind, Res};
use rustc_hir::def_id::{DefId, LocalDefId};
use rustc_middle::ty::{self, TypeckResults};

struct D<'a, 'tcx> {
    cx: &'a Cx<'tcx>,
    tr: &'tcx TypeckResults<'tcx>,
    owner: LocalDefId,
}

pub fn body<'tcx>(cx: &Cx<'tcx>, ldid: LocalDefId) -> J {
    let tcx = cx.tcx;
    let b = tcx.hir_body_owned_by(ldid);
    let tr = tcx.typeck(ldid);
    let d = D { cx, tr, owner: ldid };
    J::O(vec![
        ("params", J::A(b.params.iter().map(|p| d.pat(p.pat)).collect())),
        ("value", d.expr(b.value)),
    ])
}

impl<'a, 'tcx> D<'a, 'tcx> {
    fn res(&self, o: &mut Vec<(&'static str, J)>, res: Res) {
        match res {
            Res::Def(kind, did) => {
                o.push(("res_kind", J::S(defkind(kind))));
                o.push(("res", J::S(self.cx.path(did))));
                if let DefKind::Ctor(..) = kind {
                    // also name the variant / struct the constructor belongs to
                    let p = self.cx.tcx.parent(did);
                    o.push(("ctor_of", J::S(self.cx.path(p))));
                }
            }
            Res::Local(hid) => {
                o.push(("res_kind", J::s("Local")));
                o.push(("res", J::S(self.cx.tcx.hir_name(hid).to_string())));
                o.push(("lid", J::I(hid.local_id.as_u32() as i128)));
            }
            Res::SelfCtor(did) => {
                o.push(("res_kind", J::s("SelfCtor")));
                o.push(("res", J::S(self.cx.path(did))));
            }
            Res::SelfTyAlias { alias_to, .. } => {
                o.push(("res_kind", J::s("SelfTy")));
                o.push(("res", J::S(self.cx.path(alias_to))));
            }
            Res::SelfTyParam { trait_ } => {
                o.push(("res_kind", J::s("SelfTyParam")));
                o.push(("res", J::S(self.cx.path(trait_))));
            }
            Res::PrimTy(p) => {
                o.push(("res_kind", J::s("PrimTy")));
                o.push(("res", J::S(p.name_str().to_string())));
            }
            other => {
                o.push(("res_kind", J::S(format!("{:?}", other))));
            }
        }
    }

    /// Resolve a (possibly trait) callee with the generic args recorded by typeck.
    fn resolve(&self, o: &mut Vec<(&'static str, J)>, did: DefId, args: ty::GenericArgsRef<'tcx>) {
        let tcx = self.cx.tcx;
        o.push(("callee", J::S(self.cx.path(did))));
        let env = ty::TypingEnv::post_analysis(tcx, self.owner.to_def_id());
        let arity_ok = tcx.generics_of(did).count() == args.len();
        if !arity_ok {
            o.push(("arity_mismatch", J::B(true)));
        } else if let Ok(Some(inst)) = ty::Instance::try_resolve(tcx, env, did, args) {
            let r = inst.def_id();
            if r != did {
                o.push(("resolved", J::S(self.cx.path(r))));
            }
        }
        if !args.is_empty() {
            o.push(("gargs", J::A(args.iter().map(|a| J::S(np!(a.to_string()))).collect())));
        }
    }

    fn qpath(&self, o: &mut Vec<(&'static str, J)>, q: &hir::QPath<'tcx>, hid: hir::HirId) {
        let res = self.tr.qpath_res(q, hid);
        self.res(o, res);
        if let Res::Def(DefKind::Fn | DefKind::AssocFn | DefKind::AssocConst { .. }, did) = res {
            let args = self.tr.node_args(hid);
            let mut t = vec![];
            self.resolve(&mut t, did, args);
            for (k, v) in t {
                if k != "callee" {
                    o.push((k, v));
                }
            }
        }
    }

    fn lit(&self, l: &hir::Lit) -> J {
        use rustc_ast::LitKind::*;
        match &l.node {
            Str(s, _) => J::O(vec![("t", J::s("str")), ("v", J::S(s.to_string()))]),
            ByteStr(b, _) => J::O(vec![("t", J::s("bytestr")), ("v", J::S(b.as_byte_str().iter().map(|&x| x as char).collect::<String>()))]),
            Byte(b) => J::O(vec![("t", J::s("byte")), ("v", J::I(*b as i128))]),
            Char(c) => J::O(vec![("t", J::s("char")), ("v", J::S(c.to_string()))]),
            Int(v, _) => J::O(vec![("t", J::s("int")), ("v", J::I(v.get() as i128))]),
            Bool(b) => J::O(vec![("t", J::s("bool")), ("v", J::B(*b))]),
            Float(s, _) => J::O(vec![("t", J::s("float")), ("v", J::S(s.to_string()))]),
            other => J::O(vec![("t", J::s("other")), ("v", J::S(format!("{:?}", other)))]),
        }
    }

    fn pat_expr(&self, p: &hir::PatExpr<'tcx>) -> J {
        let mut o: Vec<(&'static str, J)> = vec![];
        match &p.kind {
            hir::PatExprKind::Lit { lit, negated } => {
                o.push(("k", J::s("Lit")));
                o.push(("lit", self.lit(lit)));
                if *negated {
                    o.push(("neg", J::B(true)));
                }
            }
            hir::PatExprKind::Path(q) => {
                o.push(("k", J::s("Path")));
                self.qpath(&mut o, q, p.hir_id);
            }
            _ => {
                o.push(("k", J::s("Other")));
            }
        }
        self.cx.sp_fields(&mut o, p.span);
        J::O(o)
    }

    pub fn pat(&self, p: &hir::Pat<'tcx>) -> J {
        let mut o: Vec<(&'static str, J)> = vec![];
        use hir::PatKind::*;
        match &p.kind {
            Wild => o.push(("k", J::s("PWild"))),
            Missing => o.push(("k", J::s("PMissing"))),
            Never => o.push(("k", J::s("PNever"))),
            Binding(mode, hid, ident, sub) => {
                o.push(("k", J::s("PBinding")));
                o.push(("name", J::S(ident.name.to_string())));
                o.push(("lid", J::I(hid.local_id.as_u32() as i128)));
                o.push(("mode", J::S(format!("{:?}", mode))));
                if let Some(s) = sub {
                    o.push(("sub", self.pat(s)));
                }
            }
            Struct(q, fields, rest) => {
                o.push(("k", J::s("PStruct")));
                self.qpath(&mut o, q, p.hir_id);
                o.push((
                    "fields",
                    J::A(fields
                        .iter()
                        .map(|f| J::O(vec![("name", J::S(f.ident.name.to_string())), ("pat", self.pat(f.pat))]))
                        .collect()),
                ));
                o.push(("rest", J::B(rest.is_some())));
            }
            TupleStruct(q, pats, ddp) => {
                o.push(("k", J::s("PTupleStruct")));
                self.qpath(&mut o, q, p.hir_id);
                o.push(("pats", J::A(pats.iter().map(|x| self.pat(x)).collect())));
                if let Some(i) = ddp.as_opt_usize() {
                    o.push(("dotdot", J::I(i as i128)));
                }
            }
            Or(pats) => {
                o.push(("k", J::s("POr")));
                o.push(("pats", J::A(pats.iter().map(|x| self.pat(x)).collect())));
            }
            Tuple(pats, ddp) => {
                o.push(("k", J::s("PTuple")));
                o.push(("pats", J::A(pats.iter().map(|x| self.pat(x)).collect())));
                if let Some(i) = ddp.as_opt_usize() {
                    o.push(("dotdot", J::I(i as i128)));
                }
            }
            Box(x) => {
                o.push(("k", J::s("PBox")));
                o.push(("pat", self.pat(x)));
            }
            Deref(x) => {
                o.push(("k", J::s("PDeref")));
                o.push(("pat", self.pat(x)));
            }
            Ref(x, _, m) => {
                o.push(("k", J::s("PRef")));
                o.push(("mut", J::B(m.is_mut())));
                o.push(("pat", self.pat(x)));
            }
            Expr(e) => {
                o.push(("k", J::s("PExpr")));
                o.push(("e", self.pat_expr(e)));
            }
            Guard(x, g) => {
                o.push(("k", J::s("PGuard")));
                o.push(("pat", self.pat(x)));
                o.push(("guard", self.expr(g)));
            }
            Range(a, b, end) => {
                o.push(("k", J::s("PRange")));
                if let Some(a) = a {
                    o.push(("lo", self.pat_expr(a)));
                }
                if let Some(b) = b {
                    o.push(("hi", self.pat_expr(b)));
                }
                o.push(("end", J::S(format!("{:?}", end))));
            }
            Slice(a, m, b) => {
                o.push(("k", J::s("PSlice")));
                o.push(("before", J::A(a.iter().map(|x| self.pat(x)).collect())));
                if let Some(m) = m {
                    o.push(("mid", self.pat(m)));
                }
                o.push(("after", J::A(b.iter().map(|x| self.pat(x)).collect())));
            }
            Err(_) => o.push(("k", J::s("PErr"))),
        }
        self.cx.sp_fields(&mut o, p.span);
        o.push(("ty", J::S(self.cx.ty_str(self.tr.pat_ty(p)))));
        J::O(o)
    }

    fn block(&self, b: &hir::Block<'tcx>) -> J {
        let mut o: Vec<(&'static str, J)> = vec![];
        o.push(("k", J::s("Block")));
        let mut stmts = vec![];
        for s in b.stmts {
            let mut so: Vec<(&'static str, J)> = vec![];
            match &s.kind {
                hir::StmtKind::Let(l) => {
                    so.push(("k", J::s("Let")));
                    so.push(("pat", self.pat(l.pat)));
                    if let Some(i) = l.init {
                        so.push(("init", self.expr(i)));
                    }
                    if let Some(e) = l.els {
                        so.push(("els", self.block(e)));
                    }
                }
                hir::StmtKind::Item(_) => so.push(("k", J::s("Item"))),
                hir::StmtKind::Expr(e) => {
                    so.push(("k", J::s("Expr")));
                    so.push(("e", self.expr(e)));
                }
                hir::StmtKind::Semi(e) => {
                    so.push(("k", J::s("Semi")));
                    so.push(("e", self.expr(e)));
                }
            }
            self.cx.sp_fields(&mut so, s.span);
            stmts.push(J::O(so));
        }
        o.push(("stmts", J::A(stmts)));
        if let Some(e) = b.expr {
            o.push(("expr", self.expr(e)));
        }
        self.cx.sp_fields(&mut o, b.span);
        J::O(o)
    }

    pub fn expr(&self, e: &hir::Expr<'tcx>) -> J {
        let tcx = self.cx.tcx;
        let mut o: Vec<(&'static str, J)> = vec![];
        use hir::ExprKind::*;
        match &e.kind {
            ConstBlock(_) => o.push(("k", J::s("ConstBlock"))),
            Array(xs) => {
                o.push(("k", J::s("Array")));
                o.push(("elems", J::A(xs.iter().map(|x| self.expr(x)).collect())));
            }
            Call(f, args) => {
                o.push(("k", J::s("Call")));
                // overloaded call (Fn* traits)?
                if self.tr.is_method_call(e) {
                    if let Some(did) = self.tr.type_dependent_def_id(e.hir_id) {
                        o.push(("overloaded", J::S(self.cx.path(did))));
                    }
                }
                o.push(("f", self.expr(f)));
                o.push(("args", J::A(args.iter().map(|x| self.expr(x)).collect())));
            }
            MethodCall(seg, recv, args, _) => {
                o.push(("k", J::s("MethodCall")));
                o.push(("name", J::S(seg.ident.name.to_string())));
                if let Some(did) = self.tr.type_dependent_def_id(e.hir_id) {
                    let ga = self.tr.node_args(e.hir_id);
                    self.resolve(&mut o, did, ga);
                }
                o.push(("recv", self.expr(recv)));
                o.push(("args", J::A(args.iter().map(|x| self.expr(x)).collect())));
            }
            Use(x, _) => {
                o.push(("k", J::s("Use")));
                o.push(("e", self.expr(x)));
            }
            Tup(xs) => {
                o.push(("k", J::s("Tup")));
                o.push(("elems", J::A(xs.iter().map(|x| self.expr(x)).collect())));
            }
            Binary(op, a, b) => {
                o.push(("k", J::s("Binary")));
                o.push(("op", J::S(format!("{:?}", op.node))));
                if self.tr.is_method_call(e) {
                    if let Some(did) = self.tr.type_dependent_def_id(e.hir_id) {
                        let ga = self.tr.node_args(e.hir_id);
                        self.resolve(&mut o, did, ga);
                    }
                }
                o.push(("a", self.expr(a)));
                o.push(("b", self.expr(b)));
            }
            Unary(op, a) => {
                o.push(("k", J::s("Unary")));
                o.push(("op", J::S(format!("{:?}", op))));
                if self.tr.is_method_call(e) {
                    if let Some(did) = self.tr.type_dependent_def_id(e.hir_id) {
                        let ga = self.tr.node_args(e.hir_id);
                        self.resolve(&mut o, did, ga);
                    }
                }
                o.push(("a", self.expr(a)));
            }
            Lit(l) => {
                o.push(("k", J::s("Lit")));
                o.push(("lit", self.lit(l)));
            }
            Cast(x, _) => {
                o.push(("k", J::s("Cast")));
                o.push(("e", self.expr(x)));
            }
            Type(x, _) => {
                o.push(("k", J::s("Type")));
                o.push(("e", self.expr(x)));
            }
            DropTemps(x) => {
                o.push(("k", J::s("DropTemps")));
                o.push(("e", self.expr(x)));
            }
            Let(l) => {
                o.push(("k", J::s("LetExpr")));
                o.push(("pat", self.pat(l.pat)));
                o.push(("init", self.expr(l.init)));
            }
            If(c, t, f) => {
                o.push(("k", J::s("If")));
                o.push(("cond", self.expr(c)));
                o.push(("then", self.expr(t)));
                if let Some(f) = f {
                    o.push(("else", self.expr(f)));
                }
            }
            Loop(b, label, src, _) => {
                o.push(("k", J::s("Loop")));
                o.push(("src", J::S(format!("{:?}", src))));
                if let Some(l) = label {
                    o.push(("label", J::S(l.ident.name.to_string())));
                }
                o.push(("body", self.block(b)));
            }
            Match(s, arms, src) => {
                o.push(("k", J::s("Match")));
                o.push(("src", J::S(format!("{:?}", src).split('(').next().unwrap_or("").to_string())));
                o.push(("scrut", self.expr(s)));
                let mut av = vec![];
                for a in *arms {
                    let mut ao: Vec<(&'static str, J)> = vec![];
                    ao.push(("pat", self.pat(a.pat)));
                    if let Some(g) = a.guard {
                        ao.push(("guard", self.expr(g)));
                    }
                    ao.push(("body", self.expr(a.body)));
                    self.cx.sp_fields(&mut ao, a.span);
                    av.push(J::O(ao));
                }
                o.push(("arms", J::A(av)));
            }
            Closure(c) => {
                o.push(("k", J::s("Closure")));
                o.push(("def", J::S(self.cx.path(c.def_id.to_def_id()))));
                let b = tcx.hir_body(c.body);
                o.push(("params", J::A(b.params.iter().map(|p| self.pat(p.pat)).collect())));
                o.push(("body", self.expr(b.value)));
            }
            Block(b, label) => {
                // flatten: the block object itself, tagged with a label if any
                let bj = self.block(b);
                if let J::O(mut bo) = bj {
                    if let Some(l) = label {
                        bo.push(("label", J::S(l.ident.name.to_string())));
                    }
                    bo.push(("ty", J::S(self.cx.ty_str(self.tr.expr_ty(e)))));
                    return J::O(bo);
                }
            }
            Assign(l, r, _) => {
                o.push(("k", J::s("Assign")));
                o.push(("l", self.expr(l)));
                o.push(("r", self.expr(r)));
            }
            AssignOp(op, l, r) => {
                o.push(("k", J::s("AssignOp")));
                o.push(("op", J::S(format!("{:?}", op.node))));
                if self.tr.is_method_call(e) {
                    if let Some(did) = self.tr.type_dependent_def_id(e.hir_id) {
                        let ga = self.tr.node_args(e.hir_id);
                        self.resolve(&mut o, did, ga);
                    }
                }
                o.push(("l", self.expr(l)));
                o.push(("r", self.expr(r)));
            }
            Field(x, ident) => {
                o.push(("k", J::s("Field")));
                o.push(("name", J::S(ident.name.to_string())));
                o.push(("e", self.expr(x)));
            }
            Index(a, i, _) => {
                o.push(("k", J::s("Index")));
                if self.tr.is_method_call(e) {
                    if let Some(did) = self.tr.type_dependent_def_id(e.hir_id) {
                        let ga = self.tr.node_args(e.hir_id);
                        self.resolve(&mut o, did, ga);
                    }
                }
                o.push(("e", self.expr(a)));
                o.push(("idx", self.expr(i)));
            }
            Path(q) => {
                o.push(("k", J::s("Path")));
                self.qpath(&mut o, q, e.hir_id);
            }
            AddrOf(_, m, x) => {
                o.push(("k", J::s("AddrOf")));
                o.push(("mut", J::B(m.is_mut())));
                o.push(("e", self.expr(x)));
            }
            Break(dest, x) => {
                o.push(("k", J::s("Break")));
                if let Some(l) = dest.label {
                    o.push(("label", J::S(l.ident.name.to_string())));
                }
                if let Some(x) = x {
                    o.push(("e", self.expr(x)));
                }
            }
            Continue(dest) => {
                o.push(("k", J::s("Continue")));
                if let Some(l) = dest.label {
                    o.push(("label", J::S(l.ident.name.to_string())));
                }
            }
            Ret(x) => {
                o.push(("k", J::s("Ret")));
                if let Some(x) = x {
                    o.push(("e", self.expr(x)));
                }
            }
            Struct(q, fields, tail) => {
                o.push(("k", J::s("Struct")));
                self.qpath(&mut o, q, e.hir_id);
                o.push((
                    "fields",
                    J::A(fields
                        .iter()
                        .map(|f| J::O(vec![("name", J::S(f.ident.name.to_string())), ("e", self.expr(f.expr))]))
                        .collect()),
                ));
                if let hir::StructTailExpr::Base(b) = tail {
                    o.push(("base", self.expr(b)));
                }
            }
            Repeat(x, _) => {
                o.push(("k", J::s("Repeat")));
                o.push(("e", self.expr(x)));
            }
            Yield(x, _) => {
                o.push(("k", J::s("Yield")));
                o.push(("e", self.expr(x)));
            }
            Become(x) => {
                o.push(("k", J::s("Become")));
                o.push(("e", self.expr(x)));
            }
            InlineAsm(_) => o.push(("k", J::s("InlineAsm"))),
            OffsetOf(..) => o.push(("k", J::s("OffsetOf"))),
            UnsafeBinderCast(_, x, _) => {
                o.push(("k", J::s("UnsafeBinderCast")));
                o.push(("e", self.expr(x)));
            }
            Err(_) => o.push(("k", J::s("Err"))),
        }
        self.cx.sp_fields(&mut o, e.span);
        let t = self.tr.expr_ty(e);
        let ta = self.tr.expr_ty_adjusted(e);
        o.push(("ty", J::S(self.cx.ty_str(t))));
        if ta != t {
            o.push(("aty", J::S(self.cx.ty_str(ta))));
        }
        J::O(o)
    }
}

fn defkind(k: DefKind) -> String {
    match k {
        DefKind::Ctor(of, kind) => format!("Ctor({:?},{:?})", of, kind),
        other => format!("{:?}", other).split(|c| c == '(' || c == '{').next().unwrap_or("").trim().to_string(),
    }
}
