// factgen: rustc_private driver that dumps type-resolved HIR, MIR and item
// facts of the crate being compiled as one JSON file (engine E1, DESIGN.md §2).
//
// Used as RUSTC_WORKSPACE_WRAPPER under `cargo +nightly check`.  It never runs
// the analysed program: it only reads what the compiler front end produced.
#![feature(rustc_private)]
#![allow(clippy::all)]

extern crate rustc_abi;
extern crate rustc_ast;
extern crate rustc_data_structures;
extern crate rustc_driver;
extern crate rustc_hir;
extern crate rustc_interface;
extern crate rustc_middle;
extern crate rustc_span;

mod json;
mod hirdump;
mod mirdump;

use json::J;
use rustc_driver::Compilation;
use rustc_hir as hir;
use rustc_hir::def::DefKind;
use rustc_hir::def_id::{DefId, LocalDefId};
use rustc_middle::ty::{self, TyCtxt};
use rustc_span::Span;

pub struct Cx<'tcx> {
    pub tcx: TyCtxt<'tcx>,
}

#[macro_export]
macro_rules! np {
    ($e:expr) => {
        rustc_middle::ty::print::with_crate_prefix!(rustc_middle::ty::print::with_no_trimmed_paths!(
            rustc_middle::ty::print::with_no_visible_paths!($e)
        ))
    };
}

impl<'tcx> Cx<'tcx> {
    pub fn path(&self, did: DefId) -> String {
        np!(self.tcx.def_path_str(did))
    }
    pub fn ty_str(&self, t: ty::Ty<'tcx>) -> String {
        np!(t.to_string())
    }
    pub fn span(&self, sp: Span) -> String {
        let sp = if sp.from_expansion() { sp.source_callsite() } else { sp };
        let sm = self.tcx.sess.source_map();
        let lo = sm.lookup_char_pos(sp.lo());
        let name = match &lo.file.name {
            rustc_span::FileName::Real(r) => match r.local_path() {
                Some(p) => p.to_string_lossy().to_string(),
                None => format!("{:?}", r),
            },
            other => format!("{:?}", other),
        };
        format!("{}:{}:{}", name, lo.line, lo.col.0 + 1)
    }
    /// "" when the span is user-written; otherwise a tag naming the expansion.
    pub fn expn(&self, sp: Span) -> Option<String> {
        if !sp.from_expansion() {
            return None;
        }
        let d = sp.ctxt().outer_expn_data();
        Some(match d.kind {
            rustc_span::ExpnKind::Root => "root".to_string(),
            rustc_span::ExpnKind::Macro(k, name) => format!("{:?}:{}", k, name),
            rustc_span::ExpnKind::AstPass(p) => format!("astpass:{:?}", p),
            rustc_span::ExpnKind::Desugaring(k) => format!("desugar:{:?}", k),
        })
    }
    pub fn sp_fields(&self, o: &mut Vec<(&'static str, J)>, sp: Span) {
        o.push(("sp", J::S(self.span(sp))));
        if let Some(e) = self.expn(sp) {
            o.push(("exp", J::S(e)));
        }
    }
}

struct Cb;

impl rustc_driver::Callbacks for Cb {
    fn after_analysis<'tcx>(
        &mut self,
        _c: &rustc_interface::interface::Compiler,
        tcx: TyCtxt<'tcx>,
    ) -> Compilation {
        let out = match std::env::var("FACTGEN_OUT") {
            Ok(o) => o,
            Err(_) => return Compilation::Continue,
        };
        let cx = Cx { tcx };
        let j = emit(&cx);
        let cname = tcx.crate_name(rustc_hir::def_id::LOCAL_CRATE).to_string();
        let ctype = format!("{:?}", tcx.crate_types());
        let kind = if ctype.contains("Executable") { "bin" } else { "lib" };
        let path = format!("{}/{}.{}.json", out, cname, kind);
        let mut s = String::with_capacity(1 << 24);
        j.write(&mut s);
        // one write per process
        std::fs::write(&path, s).expect("factgen: cannot write fact file");
        Compilation::Continue
    }
}

fn fn_attrs(cx: &Cx<'_>, did: DefId) -> J {
    let tcx = cx.tcx;
    let mut o = vec![];
    let must_use = hir::find_attr!(tcx, did, MustUse { .. });
    o.push(("must_use", J::B(must_use)));
    let tc = tcx
        .codegen_fn_attrs(did)
        .flags
        .contains(rustc_middle::middle::codegen_fn_attrs::CodegenFnAttrFlags::TRACK_CALLER);
    o.push(("track_caller", J::B(tc)));
    J::O(o)
}

fn emit<'tcx>(cx: &Cx<'tcx>) -> J {
    let tcx = cx.tcx;
    let mut top: Vec<(&'static str, J)> = vec![];
    top.push(("crate", J::S(tcx.crate_name(rustc_hir::def_id::LOCAL_CRATE).to_string())));
    top.push(("rustc", J::S(option_env!("CFG_VERSION").unwrap_or("?").to_string())));

    // ---- ADTs and impls -------------------------------------------------
    let mut adts = vec![];
    let mut impls = vec![];
    let mut traits = vec![];
    for id in tcx.hir_free_items() {
        let item = tcx.hir_item(id);
        let did = item.owner_id.to_def_id();
        match item.kind {
            hir::ItemKind::Enum(..) | hir::ItemKind::Struct(..) => {
                let adt = tcx.adt_def(did);
                let mut o = vec![];
                o.push(("path", J::S(cx.path(did))));
                o.push(("kind", J::S(if adt.is_enum() { "enum" } else { "struct" }.into())));
                cx.sp_fields(&mut o, item.span);
                let mut vs = vec![];
                for (vi, v) in adt.variants().iter_enumerated() {
                    let mut vo = vec![];
                    vo.push(("name", J::S(v.name.to_string())));
                    vo.push(("idx", J::I(vi.as_u32() as i128)));
                    if adt.is_enum() {
                        // the value `Variant as <int>` yields (explicit discriminants evaluated)
                        let d = adt.discriminant_for_variant(tcx, vi);
                        vo.push(("discr", J::I(d.val as i128)));
                    }
                    vo.push(("path", J::S(cx.path(v.def_id))));
                    vo.push(("ctor", J::S(format!("{:?}", v.ctor_kind()))));
                    let mut fs = vec![];
                    for f in v.fields.iter() {
                        let fty = tcx.type_of(f.did).instantiate_identity().skip_norm_wip();
                        fs.push(J::O(vec![
                            ("name", J::S(f.name.to_string())),
                            ("ty", J::S(cx.ty_str(fty))),
                        ]));
                    }
                    vo.push(("fields", J::A(fs)));
                    vs.push(J::O(vo));
                }
                o.push(("variants", J::A(vs)));
                adts.push(J::O(o));
            }
            hir::ItemKind::Impl(imp) => {
                let mut o = vec![];
                o.push(("path", J::S(cx.path(did))));
                cx.sp_fields(&mut o, item.span);
                let self_ty = tcx.type_of(did).instantiate_identity().skip_norm_wip();
                o.push(("self_ty", J::S(cx.ty_str(self_ty))));
                if imp.of_trait.is_some() {
                    let tr = tcx.impl_trait_ref(did).instantiate_identity().skip_norm_wip();
                    o.push(("trait", J::S(cx.path(tr.def_id))));
                    o.push(("trait_ref", J::S(np!(tr.to_string()))));
                } else {
                    o.push(("trait", J::Null));
                }
                let mut ms = vec![];
                for ai in tcx.associated_items(did).in_definition_order() {
                    let mut mo = vec![];
                    mo.push(("name", J::S(ai.name().to_string())));
                    mo.push(("path", J::S(cx.path(ai.def_id))));
                    mo.push(("kind", J::S(format!("{:?}", ai.kind).split('{').next().unwrap_or("").trim().to_string())));
                    if let Some(t) = ai.trait_item_def_id() {
                        mo.push(("trait_item", J::S(cx.path(t))));
                    }
                    ms.push(J::O(mo));
                }
                o.push(("items", J::A(ms)));
                impls.push(J::O(o));
            }
            hir::ItemKind::Trait { .. } => {
                let mut o = vec![];
                o.push(("path", J::S(cx.path(did))));
                let mut ms = vec![];
                for ai in tcx.associated_items(did).in_definition_order() {
                    ms.push(J::O(vec![
                        ("name", J::S(ai.name().to_string())),
                        ("path", J::S(cx.path(ai.def_id))),
                        ("has_default", J::B(ai.defaultness(tcx).has_value())),
                    ]));
                }
                o.push(("items", J::A(ms)));
                traits.push(J::O(o));
            }
            _ => {}
        }
    }
    top.push(("adts", J::A(adts)));
    top.push(("impls", J::A(impls)));
    top.push(("traits", J::A(traits)));

    // ---- bodies ---------------------------------------------------------
    let mut fns = vec![];
    for ldid in tcx.hir_body_owners() {
        let did = ldid.to_def_id();
        let dk = tcx.def_kind(did);
        let mut o = vec![];
        o.push(("path", J::S(cx.path(did))));
        o.push(("def_kind", J::S(format!("{:?}", dk).split(|c| c == '(' || c == '{').next().unwrap_or("").trim().to_string())));
        let sp = tcx.def_span(did);
        cx.sp_fields(&mut o, sp);
        let fnlike = matches!(dk, DefKind::Fn | DefKind::AssocFn | DefKind::Closure);
        if matches!(dk, DefKind::Fn | DefKind::AssocFn) {
            o.push(("attrs", fn_attrs(cx, did)));
            let sig = tcx.fn_sig(did).instantiate_identity().skip_norm_wip().skip_binder();
            o.push(("ret_ty", J::S(cx.ty_str(sig.output()))));
            o.push(("param_tys", J::A(sig.inputs().iter().map(|t| J::S(cx.ty_str(*t))).collect())));
            o.push(("vis", J::S(format!("{:?}", tcx.visibility(did)))));
            if let Some(p) = tcx.opt_parent(did) {
                o.push(("parent", J::S(cx.path(p))));
                if let Some(t) = tcx.trait_item_of(did) {
                    o.push(("trait_item", J::S(cx.path(t))));
                }
            }
        }
        if dk == DefKind::Closure {
            let root = tcx.typeck_root_def_id(did);
            o.push(("root", J::S(cx.path(root))));
            o.push(("parent", J::S(cx.path(tcx.parent(did)))));
        }
        // HIR (closures are dumped inline in their parent)
        if dk != DefKind::Closure {
            o.push(("hir", hirdump::body(cx, ldid)));
        }
        if fnlike {
            o.push(("mir", mirdump::body(cx, ldid)));
        }
        fns.push(J::O(o));
    }
    top.push(("fns", J::A(fns)));
    J::O(top)
}

#[allow(dead_code)]
pub fn local_path(cx: &Cx<'_>, l: LocalDefId) -> String {
    cx.path(l.to_def_id())
}

fn main() {
    let mut args: Vec<String> = std::env::args().collect();
    // RUSTC_WORKSPACE_WRAPPER: argv = [factgen, /path/to/rustc, args...]
    if args.len() > 1 && (args[1].ends_with("rustc") || args[1].contains("/rustc")) {
        args.remove(1);
    }
    let mut cb = Cb;
    rustc_driver::run_compiler(&args, &mut cb);
}
