// MIR bodies (opt-level 0) as JSON: blocks, statements, terminators with
// resolved callees, asserts, switch guards, locals and dominators.
use crate::json::J;
use crate::{np, Cx};
use rustc_hir::def_id::LocalDefId;
use rustc_middle::mir::{self, Operand, Place, Rvalue, StatementKind, TerminatorKind};
use rustc_middle::ty::{self, TyCtxt};

struct M<'a, 'tcx> {
    cx: &'a Cx<'tcx>,
    tcx: TyCtxt<'tcx>,
    body: &'tcx mir::Body<'tcx>,
    env: ty::TypingEnv<'tcx>,
}

pub fn body<'tcx>(cx: &Cx<'tcx>, ldid: LocalDefId) -> J {
    let tcx = cx.tcx;
    let body = tcx.optimized_mir(ldid.to_def_id());
    let env = ty::TypingEnv::post_analysis(tcx, ldid.to_def_id());
    let m = M { cx, tcx, body, env };
    let mut o: Vec<(&'static str, J)> = vec![];
    o.push(("arg_count", J::I(body.arg_count as i128)));
    // locals
    let mut locals = vec![];
    for (_l, d) in body.local_decls.iter_enumerated() {
        locals.push(J::O(vec![
            ("ty", J::S(cx.ty_str(d.ty))),
        ]));
    }
    o.push(("locals", J::A(locals)));
    // debug names
    let mut dbg = vec![];
    for v in &body.var_debug_info {
        if let mir::VarDebugInfoContents::Place(p) = &v.value {
            dbg.push(J::O(vec![("name", J::S(v.name.to_string())), ("place", m.place(p))]));
        }
    }
    o.push(("debug", J::A(dbg)));
    // blocks
    let doms = body.basic_blocks.dominators();
    let mut blocks = vec![];
    for (bb, data) in body.basic_blocks.iter_enumerated() {
        let mut bo: Vec<(&'static str, J)> = vec![];
        bo.push(("cleanup", J::B(data.is_cleanup)));
        match doms.immediate_dominator(bb) {
            Some(d) => bo.push(("idom", J::I(d.as_u32() as i128))),
            None => bo.push(("idom", J::Null)),
        }
        let mut stmts = vec![];
        for s in &data.statements {
            if let Some(j) = m.stmt(s) {
                stmts.push(j);
            }
        }
        bo.push(("stmts", J::A(stmts)));
        bo.push(("term", m.term(data.terminator())));
        blocks.push(J::O(bo));
    }
    o.push(("blocks", J::A(blocks)));
    J::O(o)
}

impl<'a, 'tcx> M<'a, 'tcx> {
    fn place(&self, p: &Place<'tcx>) -> J {
        let mut proj = vec![];
        for e in p.projection.iter() {
            use mir::ProjectionElem::*;
            proj.push(match e {
                Deref => J::s("*"),
                Field(f, _) => J::S(format!("f{}", f.as_u32())),
                Index(l) => J::S(format!("[_{}]", l.as_u32())),
                ConstantIndex { offset, from_end, .. } => J::S(format!("[c{}{}]", if from_end { "-" } else { "" }, offset)),
                Subslice { from, to, from_end } => J::S(format!("[{}..{}{}]", from, if from_end { "-" } else { "" }, to)),
                Downcast(name, idx) => J::S(format!("as:{}:{}", name.map(|s| s.to_string()).unwrap_or_default(), idx.as_u32())),
                OpaqueCast(_) => J::s("opaque"),
                UnwrapUnsafeBinder(_) => J::s("unwrap_binder"),
            });
        }
        J::O(vec![("l", J::I(p.local.as_u32() as i128)), ("p", J::A(proj))])
    }

    fn operand(&self, op: &Operand<'tcx>) -> J {
        match op {
            Operand::Copy(p) => J::O(vec![("k", J::s("copy")), ("place", self.place(p))]),
            Operand::Move(p) => J::O(vec![("k", J::s("move")), ("place", self.place(p))]),
            Operand::Constant(c) => {
                let mut o: Vec<(&'static str, J)> = vec![("k", J::s("const"))];
                let t = c.const_.ty();
                o.push(("ty", J::S(self.cx.ty_str(t))));
                o.push(("v", J::S(np!(format!("{}", c.const_)))));
                if let ty::FnDef(did, args) = t.kind() {
                    o.push(("fn", J::S(self.cx.path(*did))));
                    if self.tcx.generics_of(*did).count() != args.len() {} else if let Ok(Some(inst)) = ty::Instance::try_resolve(self.tcx, self.env, *did, args) {
                        if inst.def_id() != *did {
                            o.push(("resolved", J::S(self.cx.path(inst.def_id()))));
                        }
                    }
                }
                if t.is_integral() || t.is_bool() || t.is_char() {
                    if let Some(si) = c.const_.try_eval_scalar_int(self.tcx, self.env) {
                        let size = si.size();
                        let v: i128 = if t.is_signed() { si.to_int(size) } else { si.to_uint(size) as i128 };
                        o.push(("int", J::I(v)));
                    }
                }
                J::O(o)
            }
            Operand::RuntimeChecks(c) => J::O(vec![("k", J::s("runtime_checks")), ("v", J::S(format!("{:?}", c)))]),
        }
    }

    fn rvalue(&self, rv: &Rvalue<'tcx>) -> J {
        let mut o: Vec<(&'static str, J)> = vec![];
        match rv {
            Rvalue::Use(op, _) => {
                o.push(("k", J::s("Use")));
                o.push(("op", self.operand(op)));
            }
            Rvalue::Repeat(op, _) => {
                o.push(("k", J::s("Repeat")));
                o.push(("op", self.operand(op)));
            }
            Rvalue::Ref(_, bk, p) => {
                o.push(("k", J::s("Ref")));
                o.push(("mut", J::B(matches!(bk, mir::BorrowKind::Mut { .. }))));
                o.push(("place", self.place(p)));
            }
            Rvalue::ThreadLocalRef(_) => o.push(("k", J::s("ThreadLocalRef"))),
            Rvalue::RawPtr(_, p) => {
                o.push(("k", J::s("RawPtr")));
                o.push(("place", self.place(p)));
            }
            Rvalue::Cast(kind, op, t) => {
                o.push(("k", J::s("Cast")));
                o.push(("cast", J::S(format!("{:?}", kind).split('(').next().unwrap_or("").to_string())));
                o.push(("op", self.operand(op)));
                o.push(("from", J::S(self.cx.ty_str(op.ty(&self.body.local_decls, self.tcx)))));
                o.push(("to", J::S(self.cx.ty_str(*t))));
            }
            Rvalue::BinaryOp(op, ab) => {
                o.push(("k", J::s("BinaryOp")));
                o.push(("op", J::S(format!("{:?}", op))));
                o.push(("a", self.operand(&ab.0)));
                o.push(("b", self.operand(&ab.1)));
                o.push(("aty", J::S(self.cx.ty_str(ab.0.ty(&self.body.local_decls, self.tcx)))));
            }
            Rvalue::UnaryOp(op, a) => {
                o.push(("k", J::s("UnaryOp")));
                o.push(("op", J::S(format!("{:?}", op))));
                o.push(("a", self.operand(a)));
                o.push(("aty", J::S(self.cx.ty_str(a.ty(&self.body.local_decls, self.tcx)))));
            }
            Rvalue::Discriminant(p) => {
                o.push(("k", J::s("Discriminant")));
                o.push(("place", self.place(p)));
                let pt = p.ty(&self.body.local_decls, self.tcx).ty;
                o.push(("of", J::S(self.cx.ty_str(pt))));
            }
            Rvalue::Aggregate(kind, ops) => {
                o.push(("k", J::s("Aggregate")));
                match &**kind {
                    mir::AggregateKind::Adt(did, vi, _, _, _) => {
                        let adt = self.tcx.adt_def(*did);
                        o.push(("adt", J::S(self.cx.path(*did))));
                        o.push(("variant", J::S(adt.variant(*vi).name.to_string())));
                    }
                    mir::AggregateKind::Closure(did, _) => o.push(("closure", J::S(self.cx.path(*did)))),
                    mir::AggregateKind::Tuple => o.push(("agg", J::s("tuple"))),
                    mir::AggregateKind::Array(_) => o.push(("agg", J::s("array"))),
                    _ => o.push(("agg", J::s("other"))),
                }
                o.push(("ops", J::A(ops.iter().map(|x| self.operand(x)).collect())));
            }
            Rvalue::CopyForDeref(p) => {
                o.push(("k", J::s("CopyForDeref")));
                o.push(("place", self.place(p)));
            }
            Rvalue::WrapUnsafeBinder(op, _) => {
                o.push(("k", J::s("WrapUnsafeBinder")));
                o.push(("op", self.operand(op)));
            }
        }
        J::O(o)
    }

    fn stmt(&self, s: &mir::Statement<'tcx>) -> Option<J> {
        let mut o: Vec<(&'static str, J)> = vec![];
        match &s.kind {
            StatementKind::Assign(b) => {
                o.push(("k", J::s("Assign")));
                o.push(("place", self.place(&b.0)));
                o.push(("rv", self.rvalue(&b.1)));
            }
            StatementKind::SetDiscriminant { place, variant_index } => {
                o.push(("k", J::s("SetDiscriminant")));
                o.push(("place", self.place(place)));
                o.push(("variant", J::I(variant_index.as_u32() as i128)));
            }
            StatementKind::StorageLive(l) => {
                o.push(("k", J::s("StorageLive")));
                o.push(("l", J::I(l.as_u32() as i128)));
                return Some(J::O(o));
            }
            StatementKind::StorageDead(l) => {
                o.push(("k", J::s("StorageDead")));
                o.push(("l", J::I(l.as_u32() as i128)));
                return Some(J::O(o));
            }
            _ => return None,
        }
        self.cx.sp_fields(&mut o, s.source_info.span);
        Some(J::O(o))
    }

    fn term(&self, t: &mir::Terminator<'tcx>) -> J {
        let mut o: Vec<(&'static str, J)> = vec![];
        let bbj = |b: mir::BasicBlock| J::I(b.as_u32() as i128);
        let unwind = |u: &mir::UnwindAction| match u {
            mir::UnwindAction::Cleanup(b) => J::I(b.as_u32() as i128),
            _ => J::Null,
        };
        match &t.kind {
            TerminatorKind::Goto { target } => {
                o.push(("k", J::s("Goto")));
                o.push(("target", bbj(*target)));
            }
            TerminatorKind::SwitchInt { discr, targets } => {
                o.push(("k", J::s("SwitchInt")));
                o.push(("discr", self.operand(discr)));
                o.push(("dty", J::S(self.cx.ty_str(discr.ty(&self.body.local_decls, self.tcx)))));
                let mut ts = vec![];
                for (v, b) in targets.iter() {
                    ts.push(J::A(vec![J::I(v as i128), bbj(b)]));
                }
                o.push(("targets", J::A(ts)));
                o.push(("otherwise", bbj(targets.otherwise())));
            }
            TerminatorKind::UnwindResume => o.push(("k", J::s("UnwindResume"))),
            TerminatorKind::UnwindTerminate(_) => o.push(("k", J::s("UnwindTerminate"))),
            TerminatorKind::Return => o.push(("k", J::s("Return"))),
            TerminatorKind::Unreachable => o.push(("k", J::s("Unreachable"))),
            TerminatorKind::Drop { place, target, unwind: u, .. } => {
                o.push(("k", J::s("Drop")));
                o.push(("place", self.place(place)));
                let pt = place.ty(&self.body.local_decls, self.tcx).ty;
                o.push(("pty", J::S(self.cx.ty_str(pt))));
                o.push(("target", bbj(*target)));
                o.push(("unwind", unwind(u)));
            }
            TerminatorKind::Call { func, args, destination, target, unwind: u, fn_span, .. } => {
                o.push(("k", J::s("Call")));
                o.push(("func", self.operand(func)));
                let fty = func.ty(&self.body.local_decls, self.tcx);
                if let ty::FnDef(did, ga) = fty.kind() {
                    o.push(("callee", J::S(self.cx.path(*did))));
                    if self.tcx.generics_of(*did).count() != ga.len() {} else if let Ok(Some(inst)) = ty::Instance::try_resolve(self.tcx, self.env, *did, ga) {
                        o.push(("resolved", J::S(self.cx.path(inst.def_id()))));
                        if let ty::InstanceKind::Virtual(..) = inst.def {
                            o.push(("virtual", J::B(true)));
                        }
                    }
                    if !ga.is_empty() {
                        o.push(("gargs", J::A(ga.iter().map(|a| J::S(np!(a.to_string()))).collect())));
                    }
                    if !did.is_local() {
                        let tc = self
                            .tcx
                            .codegen_fn_attrs(*did)
                            .flags
                            .contains(rustc_middle::middle::codegen_fn_attrs::CodegenFnAttrFlags::TRACK_CALLER);
                        if tc {
                            o.push(("track_caller", J::B(true)));
                        }
                    }
                } else {
                    o.push(("fty", J::S(self.cx.ty_str(fty))));
                }
                o.push(("args", J::A(args.iter().map(|a| self.operand(&a.node)).collect())));
                o.push((
                    "arg_tys",
                    J::A(args.iter().map(|a| J::S(self.cx.ty_str(a.node.ty(&self.body.local_decls, self.tcx)))).collect()),
                ));
                o.push(("dest", self.place(destination)));
                match target {
                    Some(b) => o.push(("target", bbj(*b))),
                    None => o.push(("target", J::Null)),
                }
                o.push(("unwind", unwind(u)));
                o.push(("fn_sp", J::S(self.cx.span(*fn_span))));
            }
            TerminatorKind::TailCall { .. } => o.push(("k", J::s("TailCall"))),
            TerminatorKind::Assert { cond, expected, msg, target, unwind: u } => {
                o.push(("k", J::s("Assert")));
                o.push(("cond", self.operand(cond)));
                o.push(("expected", J::B(*expected)));
                use mir::AssertKind::*;
                let (kind, ops): (String, Vec<&Operand<'tcx>>) = match &**msg {
                    BoundsCheck { len, index } => ("BoundsCheck".into(), vec![len, index]),
                    Overflow(op, a, b) => (format!("Overflow({:?})", op), vec![a, b]),
                    OverflowNeg(a) => ("OverflowNeg".into(), vec![a]),
                    DivisionByZero(a) => ("DivisionByZero".into(), vec![a]),
                    RemainderByZero(a) => ("RemainderByZero".into(), vec![a]),
                    MisalignedPointerDereference { .. } => ("MisalignedPointerDereference".into(), vec![]),
                    NullPointerDereference => ("NullPointerDereference".into(), vec![]),
                    InvalidEnumConstruction(_) => ("InvalidEnumConstruction".into(), vec![]),
                    _ => ("Other".into(), vec![]),
                };
                o.push(("kind", J::S(kind)));
                o.push(("ops", J::A(ops.iter().map(|x| self.operand(x)).collect())));
                o.push((
                    "op_tys",
                    J::A(ops.iter().map(|x| J::S(self.cx.ty_str(x.ty(&self.body.local_decls, self.tcx)))).collect()),
                ));
                o.push(("target", bbj(*target)));
                o.push(("unwind", unwind(u)));
            }
            TerminatorKind::Yield { .. } => o.push(("k", J::s("Yield"))),
            TerminatorKind::CoroutineDrop => o.push(("k", J::s("CoroutineDrop"))),
            TerminatorKind::FalseEdge { real_target, .. } => {
                o.push(("k", J::s("Goto")));
                o.push(("target", bbj(*real_target)));
            }
            TerminatorKind::FalseUnwind { real_target, .. } => {
                o.push(("k", J::s("Goto")));
                o.push(("target", bbj(*real_target)));
            }
            TerminatorKind::InlineAsm { .. } => o.push(("k", J::s("InlineAsm"))),
        }
        self.cx.sp_fields(&mut o, t.source_info.span);
        J::O(o)
    }
}
