#!/usr/bin/env python3
"""Regenerate MANIFEST.json from tools/manifest_data.py (single source of truth)."""
import json, os, sys
sys.path.insert(0, os.path.dirname(os.path.abspath(__file__)))
import manifest_data as M
V = os.path.dirname(os.path.dirname(os.path.abspath(__file__)))
checks = []
for pid, c in sorted(M.CHECKS.items()):
    checks.append({
        "property_id": pid,
        "quick_cmd": f"./check {pid}",
        "thorough_cmd": f"./check {pid} --tier thorough",
        "evidence_file": f"/verif/evidence/{pid}.json",
        "replay_cmd_template": f"./check {pid} --replay {{path}}",
        "engine": "factgen+rules",
        "level_claimed": {"category": "other", "text": c["text"], "design_ref": c["design_ref"]},
        "level_note": c["note"],
        "technique": c["technique"],
    })
man = {
    "version": 1,
    "setup_cmd": "cd /verif/factgen && cargo +nightly build --release --offline",
    "hooks": {
        "guard": "riscv_analysis_verif",
        "enable": "none needed: the checks read the source through a rustc driver; no hook code exists in /repo",
        "baseline_off_cmd": "cd /repo && cargo test --workspace --no-fail-fast --offline",
        "source_commits": M.FIX_COMMITS,
        "add_only": True,
    },
    "engines": [
        {"name": "factgen", "path": "/verif/factgen", "serves_properties": sorted(M.CHECKS), "kind_free_text": "rustc_private driver (nightly) run as RUSTC_WORKSPACE_WRAPPER under cargo check: dumps type-resolved HIR trees, MIR (opt-level 0, overflow checks on), ADTs, impls as JSON facts"},
        {"name": "rules", "path": "/verif/rules", "serves_properties": sorted(M.CHECKS), "kind_free_text": "Python rule modules over the fact base: table agreement, who-may-call, pairing, must-pass-through, panic-site discharge, hash-order flow; reference tables in /verif/reference"},
    ],
    "checks": checks,
    "not_applicable": [{"property_id": p, "reason": r} for p, r in sorted(M.NOT_APPLICABLE.items())],
    "notes": M.NOTES,
}
json.dump(man, open(os.path.join(V, "MANIFEST.json"), "w"), indent=1)
print("wrote MANIFEST.json:", len(checks), "checks,", len(man["not_applicable"]), "not applicable")
