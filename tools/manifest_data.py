FIX_COMMITS = ["66c24f4", "e815a6e"]
NOTES = ("Static-analysis family only: every verdict is computed from /repo's current source (type-checked HIR + MIR via a rustc driver); "
         "nothing executes riscv-analysis. Properties are behavioural universals; each check decides named structural clauses that are "
         "necessary conditions (see DESIGN.md section 4) and says what it does not decide.")
TBD = "check not built yet in this round (planned, DESIGN.md section 4); not claimed until it runs green"
CHECKS = {
 "C08": {
  "text": "Every row of the finite translation tables is examined on every run: operand-role table (30 rows), mnemonic tables (101 mnemonics x 5 tables), all 33 pseudo-instruction expansions and all operand forms of the 11 base formats are extracted by symbolic path enumeration of the decoder's HIR and compared with reference tables transcribed from the RISC-V assembly manual; folding operator table and totality of MathOp::operate. Not decided: that each folding arm computes the right function beyond totality/operand extension.",
  "design_ref": "DESIGN.md section 4 C08",
  "note": "Trusts the rustc front end and the reference tables in /verif/reference; the decoder must keep its idiom (match over Type / PseudoType with positional constructor calls) or the rule fails closed as UNEXTRACTABLE.",
  "technique": "table agreement by symbolic extraction from type-checked HIR + reference tables",
 },
}
NOT_APPLICABLE = {
 "C04": "precision over all convention-conforming programs is a universal over program behaviour and eleven lint conditions; no structural clause beyond tables decided under C14 and C02",
}
for p in ["C01","C02","C03","C05","C06","C07","C09","C10","C11","C12","C13","C14","C15","C16","C17","C18","C19"]:
    NOT_APPLICABLE[p] = TBD
