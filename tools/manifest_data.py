FIX_COMMITS = ["66c24f4", "e815a6e", "cc08809", "a93577e", "48453bf", "0b61eff", "751961f", "e3322e6", "5e939ce", "230107f", "e326e4b", "67c36ae"]
NOTES = ("Static-analysis family only: every verdict is computed from /repo's current source (type-checked HIR + MIR via a rustc driver); "
         "nothing executes riscv-analysis. Properties are behavioural universals; each check decides named structural clauses that are "
         "necessary conditions (see DESIGN.md section 4) and says what it does not decide.")
TBD = "check not built yet in this round (planned, DESIGN.md section 4); not claimed until it runs green"
TRUST = "Trusts the rustc nightly front end (HIR/MIR) and, where named, the reference tables in /verif/reference; pattern-extracting rules fail closed (UNEXTRACTABLE) if the code leaves its present idiom."
def C(text, ref, technique, note=TRUST):
    return {"text": text, "design_ref": ref, "technique": technique, "note": note}
CHECKS = {
 "C01": C("Decides four necessary conditions of a sound forward must-analysis in this code's idiom: value facts are written only by AvailableValuePass (who-may-call over the resolved call graph), the kill set and ra-at-calls are removed before out[n] is published, predecessors are met with the intersection operator only, (offset arithmetic totality is decided under C06). Does NOT decide that gen/rewrite rules yield true facts for all programs.",
          "DESIGN.md section 4 C01", "who-may-call + ordering + operator identity over HIR/MIR"),
 "C02": C("Operand-role table (30 rows), liveness fact ownership, meet = union, class-wide gen/kill at calls/returns/ecalls/entries, and all 31 ecall signature rows against the RARS reference. Does NOT decide minimality or the relation to executions.",
          "DESIGN.md section 4 C02", "table agreement + who-may-call + operator identity"),
 "C03": C("Edge sets are mutated only in mirror pairs (13 call sites of 6 discovered mutators), only by CFG-generation passes, exits are exactly ecalls {10,93}, fall-through is suppressed exactly after ret/unconditional jumps. Does NOT decide that every dynamic transfer is an edge.",
          "DESIGN.md section 4 C03", "pairing + who-may-call + table rules over HIR/MIR"),
 "C05": C("Every `impl LintPass` (11) is registered in run_diagnostics and reached from both entry points; every one of the 16 diagnostic kinds is producible by reachable code; code/title/severity tables are injective / non-empty / single-valued; each kind is located on its subject payload. Does NOT decide recall for every program and injection site.",
          "DESIGN.md section 4 C05", "registry completeness + table rules over HIR, reachability over the MIR call graph"),
 "C07": C("Nothing is dropped without a node or an error: the lexer yields end-of-stream only when the source is exhausted, every LexError arm of the parse loop produces nodes or a reported error followed by line recovery (reviewed silent set of three), silent variants are constructed only at their intended token arms, token-consuming loops store or report what they consume, and no successful decode path consumes a token of unestablished kind. Does NOT decide containment of a malformed line in general.",
          "DESIGN.md section 4 C07", "arm-discipline and constructor-site rules over HIR + symbolic decode paths"),
 "C09": C("Location triples of the three error enums bind the same payload field (31 rows); positions are created only by Lexer::get_pos and every Range::new (11 sites) takes get_pos values / start-of-earlier, end-of-later in order; index bases agree per printer (compact 1-based, pretty 0-based index + line+1, JSON 0-based). Does NOT decide the lexer's row/column arithmetic.",
          "DESIGN.md section 4 C09", "table agreement + value provenance of constructor arguments"),
 "C15": C("Include-stack push/pop pairing and the include directive not kept as a node; every FileReaderError maps to a ParseError on the directive's path token and a failed include does not stop parsing; sibling cross-check of FileReader::import_file impls for a live, path-dependent re-import guard. Does NOT decide equality with the pasted single file.",
          "DESIGN.md section 4 C15", "pairing + sibling cross-check + dead-guard (fresh key) detection"),
 "C16": C("No construction of the generic CfgError variants on paths reachable from gen_full_cfg, no placeholder (nil file / default range) location for a constructed variant, undefined/duplicate label errors built from the offending tokens under their guards.",
          "DESIGN.md section 4 C16", "constructor-site reachability + location-table rules"),
 "C18": C("The CLI pipeline and RVParser::run perform the same ordered steps with imports followed, diags.sort() dominates every printer call, the three severity vocabularies agree, titles non-empty and severity fixed per kind, every printer applies the base-file selection. Does NOT decide byte-level agreement of rendered output or JSON validity.",
          "DESIGN.md section 4 C18", "sibling pipeline comparison + MIR dominance + table agreement"),
 "C06": C("Crash clause only: every arithmetic assert (overflow, division, bounds), every call to a panicking std function (#[track_caller] items queried from the compiler plus a documented list), every explicit panic and every RefCell guard held across a conflicting borrow, in all MIR bodies reachable from the lint entry points (library and CLI, incl. --yaml/--debug paths via callback edges), is either discharged by a sound rule D0-D5, exempted with a one-line reason, or reported; plus no recursion cycle. Does NOT decide termination or the time bound of the fixed-point loops.",
          "DESIGN.md section 3 G1, section 4 C06", "panic-site reachability + dominator-guard discharge + RefCell guard liveness on MIR"),
 "C17": C("Literal handling cannot crash and never narrows: G1 restricted to Imm/CsrImm parsing and the lui shift, integer casts are same-width or widening, radix table 0x/0b/decimal. Does NOT decide the value read for every spelling nor the out-of-range rejection policy.",
          "DESIGN.md section 4 C17", "panic-site discharge + cast-width rule + radix table"),
 "C08": C("Every row of the finite translation tables is examined on every run: operand-role table (30 rows), mnemonic tables (101 mnemonics x 5 tables), all 33 pseudo-instruction expansions and all operand forms of the 11 base formats are extracted by symbolic path enumeration of the decoder's HIR and compared with reference tables transcribed from the RISC-V assembly manual; folding operator table. Not decided: that each folding arm computes the right function beyond totality/operand extension.",
          "DESIGN.md section 4 C08", "table agreement by symbolic extraction from type-checked HIR + reference tables"),
 "C11": C("Membership pairing in mark_reachable, annotation ownership, function = call target (calls_to table, call_names construction, entry-insertion guard), single exit with paired rewiring, overlap trigger. Does NOT decide exactness of membership for all graphs.",
          "DESIGN.md section 4 C11", "pairing + who-may-call + guard extraction"),
 "C12": C("No change flag is dropped in the two fixed-point loops (16 setter calls), replace_if_changed contract, pipeline typestate of gen_full_cfg (every edge-mutating pass followed by a value analysis, liveness last), fact ownership. Does NOT decide that re-running a pass changes nothing (lattice argument).",
          "DESIGN.md section 4 C12", "must-use-flow + typestate over the pass sequence"),
 "C13": C("Each class of meaning-preserving respelling is absorbed by a table before analysis: case folding in the four from_str tables, 32x(numeric, ABI, alias) register spellings, separator set, radix table, pseudo-instruction = official expansion and optional-operand forms. Does NOT decide invariance of diagnostics under compositions of rewrites.",
          "DESIGN.md section 4 C13", "table agreement + use-def of the case-folded argument"),
 "C14": C("Equivariance holds iff nothing distinguishes class members except whole-class tables: class tables = psABI, class members are named only inside Register's own impls (114 mention sites), six 32-row bijections, RegisterSet bit index = to_num, no literal label names.",
          "DESIGN.md section 4 C14", "table agreement + who-may-mention"),
 "C19": C("Effective serde tags/field names read from derive-generated impls are injective and reader/writer agree (all derived types), hand-written MemoryLocation prefix tables agree with no shadowing, intermediate shapes agree, every CfgNode edge/fact/annotation field is covered by NodeWrapper, skipped fields are identity/location only. Does NOT decide round-trip equality for every value.",
          "DESIGN.md section 4 C19", "writer/reader table agreement over derive-expanded HIR"),
}
NOT_APPLICABLE = {
 "C04": "precision over all convention-conforming programs is a universal over program behaviour and eleven lint conditions; no structural clause beyond tables decided under C14 and C02",
}
for p in ["C10"]:
    NOT_APPLICABLE[p] = TBD
