#!/usr/bin/env python3
"""mutate.py <n_mutants> <workers> [seed] : mutation run of the *checks* (development aid, not a registered check).

Generates simple source mutants of /repo (operator swaps, dropped `!`, changed constants, deleted statements) in scratch
copies under /tmp, keeps those that still build and pass the 72 pinned tests, runs every property's quick check on them with
`--repo`, and lists the surviving mutants that no check reports.  Those are then read by hand: a mutant may be equivalent
or break nothing the properties state."""
import os, random, re, shutil, subprocess, sys, json, time
from concurrent.futures import ThreadPoolExecutor

REPO = "/repo"
FILES = """riscv_analysis/src/parser/lexer.rs riscv_analysis/src/parser/parsing.rs riscv_analysis/src/parser/imm.rs
riscv_analysis/src/parser/register.rs riscv_analysis/src/parser/register_has_register_set.rs riscv_analysis/src/parser/label.rs
riscv_analysis/src/parser/node_instruction_properties.rs riscv_analysis/src/parser/inst.rs
riscv_analysis/src/cfg/graph.rs riscv_analysis/src/cfg/node.rs riscv_analysis/src/cfg/ops.rs riscv_analysis/src/cfg/available_value_map.rs
riscv_analysis/src/cfg/register_set.rs riscv_analysis/src/cfg/function.rs riscv_analysis/src/cfg/iterators.rs
riscv_analysis/src/gen/directions.rs riscv_analysis/src/gen/dead_code.rs riscv_analysis/src/gen/ecall_terminate.rs riscv_analysis/src/gen/function_annotations.rs
riscv_analysis/src/analysis/available.rs riscv_analysis/src/analysis/liveness.rs riscv_analysis/src/analysis/gen_kill.rs riscv_analysis/src/analysis/memory_location.rs
riscv_analysis/src/analysis/available_value.rs
riscv_analysis/src/lints/control_flow.rs riscv_analysis/src/lints/dead_value.rs riscv_analysis/src/lints/stack.rs riscv_analysis/src/lints/ecall.rs
riscv_analysis/src/lints/callee_saved_register.rs riscv_analysis/src/lints/garbage_input_value.rs riscv_analysis/src/lints/lost_callee_saved_register.rs
riscv_analysis/src/lints/callee_saved_garbage_read.rs riscv_analysis/src/lints/overlapping_function.rs riscv_analysis/src/lints/save_to_zero.rs
riscv_analysis/src/passes/manager.rs riscv_analysis/src/passes/lint_error.rs riscv_analysis/src/passes/cfg_error.rs riscv_analysis/src/passes/diagnostics.rs
riscv_analysis/src/passes/diagnostic_manager.rs
riscv_analysis_cli/src/main.rs riscv_analysis_cli/src/printer.rs
riscv_analysis/src/cfg/iterator.rs riscv_analysis/src/cfg/ecall.rs riscv_analysis/src/cfg/interrupt_handler.rs riscv_analysis/src/cfg/ref_cell_replacement.rs
riscv_analysis/src/cfg/test_wrapper.rs riscv_analysis/src/cfg/node_gen_kill.rs riscv_analysis/src/cfg/node_instruction_properties.rs riscv_analysis/src/cfg/display.rs
riscv_analysis/src/parser/position.rs riscv_analysis/src/parser/range.rs riscv_analysis/src/parser/token.rs riscv_analysis/src/parser/with.rs
riscv_analysis/src/parser/directive.rs riscv_analysis/src/parser/error.rs riscv_analysis/src/parser/empty_file_reader.rs riscv_analysis/src/parser/rawtoken.rs
riscv_analysis/src/lints/instruction_in_text.rs riscv_analysis/src/passes/simple_error.rs riscv_analysis/src/parser/node.rs""".split()

OPS = [
    (r"(?<![<>=!&|+\-*/])<=(?!=)", "<"), (r"(?<![<>=!\-])<(?![<=])(?=\s)", "<="), (r"(?<![<>=!])>=(?!=)", ">"),
    (r"==", "!="), (r"!=", "=="), (r"&&", "||"), (r"\|\|", "&&"),
    (r"(?<=\s)\+(?=\s)", "-"), (r"(?<=\s)-(?=\s)(?!>)", "+"),
    (r"\|=", "&="), (r"&=", "|="), (r"(?<=[\s(])!(?=[a-zA-Z_(])", ""),
    (r"\.is_some\(\)", ".is_none()"), (r"\.is_none\(\)", ".is_some()"), (r"\.is_empty\(\)", ".is_empty() == false"),
    (r"\btrue\b", "false"), (r"\bfalse\b", "true"),
    (r"\b0\b(?!\.)", "1"), (r"\b1\b(?!\.)", "0"), (r"\b12\b", "11"), (r"\b32\b", "31"), (r"\b31\b", "30"),
    (r"\bcontinue;", "break;"), (r"\bbreak;", "continue;"),
]


def candidates():
    out = []
    for f in FILES:
        p = os.path.join(REPO, f)
        if not os.path.exists(p):
            continue
        lines = open(p).read().split("\n")
        for i, ln in enumerate(lines):
            if "#[cfg(test)]" in ln:
                break
            s = ln.strip()
            if not s or s.startswith("//") or s.startswith("#") or s.startswith("use ") or s.startswith("///"):
                continue
            code = ln.split("//")[0]
            for rx, rep in OPS:
                for m in re.finditer(rx, code):
                    if '"' in code[:m.start()] and code[:m.start()].count('"') % 2 == 1:
                        continue
                    out.append((f, i, m.start(), m.end(), rep, "op"))
            if s.endswith(";") and not s.startswith("let ") and not s.startswith("return") and "=>" not in s and s.count("(") == s.count(")") and not s.startswith("}"):
                out.append((f, i, 0, len(ln), "", "del"))
    return out


def run(cmd, cwd, timeout=900):
    try:
        p = subprocess.run(cmd, cwd=cwd, shell=True, capture_output=True, text=True, timeout=timeout)
        return p.returncode, p.stdout + p.stderr
    except subprocess.TimeoutExpired:
        return 124, "timeout"


def worker(wid, jobs, results):
    d = f"/tmp/mutw_{wid}"
    if not os.path.exists(d):
        run(f"rsync -a --exclude target --exclude .git {REPO}/ {d}/", "/")
        run("cargo build --workspace --offline -q", d, 1800)
    for j in jobs:
        f, i, a, b, rep, kind = j
        src = open(os.path.join(REPO, f)).read().split("\n")
        orig = src[i]
        src[i] = orig[:a] + rep + orig[b:]
        if src[i] == orig:
            continue
        open(os.path.join(d, f), "w").write("\n".join(src))
        rec = {"file": f, "line": i + 1, "from": orig.strip(), "to": src[i].strip(), "kind": kind}
        rc, out = run("timeout 240 cargo test --workspace --no-fail-fast --offline -q 2>&1 | tail -40", d, 400)
        ok = rc == 0 and "FAILED" not in out and "error" not in out.split("test result")[0][:2000].lower().replace("0 errors", "") and "test result" in out
        if rc == 124:
            rec["status"] = "timeout"
        elif not ok:
            rec["status"] = "killed-by-build-or-tests"
        else:
            hits = []
            for prop in "C01 C02 C03 C05 C06 C07 C08 C09 C10 C11 C12 C13 C14 C15 C16 C17 C18 C19".split():
                rc2, o2 = run(f"./check {prop} --repo {d} --no-evidence 2>&1 | grep -E '^ +violation ' | head -3", "/verif", 600)
                if o2.strip():
                    hits.append(prop + ":" + o2.strip().split("\n")[0].strip()[:120])
            rec["status"] = "reported" if hits else "SILENT"
            rec["hits"] = hits
        results.append(rec)
        print(json.dumps(rec), flush=True)
        shutil.copy(os.path.join(REPO, f), os.path.join(d, f))


def main():
    n = int(sys.argv[1])
    w = int(sys.argv[2])
    seed = int(sys.argv[3]) if len(sys.argv) > 3 else 1
    c = candidates()
    random.Random(seed).shuffle(c)
    c = c[:n]
    print(f"# {len(c)} mutants, {w} workers", flush=True)
    results = []
    with ThreadPoolExecutor(w) as ex:
        for k in range(w):
            ex.submit(worker, k, c[k::w], results)
    json.dump(results, open(f"/verif/.cache/mutation_{seed}.json", "w"), indent=1)
    s = {}
    for r in results:
        s[r["status"]] = s.get(r["status"], 0) + 1
    print("# summary", s)


if __name__ == "__main__":
    main()
